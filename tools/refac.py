#!/usr/bin/env python3
"""Behaviour-preserving refactorings (independent sub-agents): import, confirm, and run every check against them.

  tools/refac.py import C01 C02 ...   copy /tmp/refac/<ID>/out/{patchK.diff,equivK.py,metaK.json} to /verif/refactors/<ID>-rK/ after confirming
                                      (suite unchanged, equivalence test passes on the clean and on the refactored tree)
  tools/refac.py matrix               run all 20 quick checks against each kept refactoring; every one must stay silent (exit 0)
"""
import json, os, shutil, subprocess, sys
sys.path.insert(0, os.path.dirname(os.path.abspath(__file__)))
import seeded

BASE = os.path.join(seeded.VERIF, "refactors")


def imp(ids):
    os.makedirs(BASE, exist_ok=True)
    remap = {}
    if ids and ids[0] == "--slots":          # --slots 1:e,2:f,3:g
        remap = dict(x.split(":") for x in ids[1].split(","))
        ids = ids[2:]
    for pid in ids:
        src = f"/tmp/refac/{pid}/out"
        for k in (1, 2, 3, 4, 5, 6, 7, 8, 9, "a", "b", "c", "d", "e", "f", "g", "h", "i"):
            p, d, m = (os.path.join(src, f"{n}{k}.{e}") for n, e in (("patch", "diff"), ("equiv", "py"), ("meta", "json")))
            if not (os.path.exists(p) and os.path.exists(d)):
                continue
            dst = os.path.join(BASE, f"{pid}-r{remap.get(str(k), k)}")
            tmp = dst + ".tmp"
            shutil.rmtree(tmp, ignore_errors=True)
            os.makedirs(tmp)
            shutil.copy(p, os.path.join(tmp, "patch.diff"))
            shutil.copy(d, os.path.join(tmp, "demo.py"))
            meta = {}
            if os.path.exists(m):
                try:
                    meta = json.load(open(m))
                except Exception:
                    meta = {"raw": open(m).read()[:2000]}
            meta.update(property=pid, kind="behaviour-preserving refactoring", source="independent sub-agent given only the property text and a scratch worktree")
            t1, clean = seeded.scratch()
            try:
                t2, dirty = seeded.scratch(os.path.join(tmp, "patch.diff"))
            except subprocess.CalledProcessError:
                print(pid, k, "patch does not apply"); seeded.cleanup(t1); shutil.rmtree(tmp); continue
            try:
                rc_clean, oc = seeded.run_demo(clean, os.path.join(tmp, "demo.py"))
                rc_dirty, od = seeded.run_demo(dirty, os.path.join(tmp, "demo.py"))
                tests = seeded.run_tests(dirty)
            finally:
                seeded.cleanup(t1); seeded.cleanup(t2)
            ok = rc_clean == 0 and rc_dirty == 0 and "71 passed" in tests and "4 failed" in tests
            meta["confirmed_here"] = {"equiv_exit_on_clean_tree": rc_clean, "equiv_exit_on_refactored_tree": rc_dirty, "existing_suite_with_patch": tests}
            json.dump(meta, open(os.path.join(tmp, "meta.json"), "w"), indent=1)
            if ok:
                shutil.rmtree(dst, ignore_errors=True); os.rename(tmp, dst); print(pid, k, "CONFIRMED ->", dst)
            else:
                print(pid, k, "NOT confirmed:", rc_clean, rc_dirty, tests, (oc + od)[-200:].replace("\n", " ")); shutil.rmtree(tmp)


def matrix(names=None):
    out = {}
    for name in sorted(os.listdir(BASE)):
        d = os.path.join(BASE, name)
        if not os.path.isdir(d) or (names and name not in names):
            continue
        res = seeded.detect(d)
        alarms = {p: v for p, v in res.items() if v.startswith("1")}
        broken = {p: v for p, v in res.items() if not v.startswith("0") and not v.startswith("1")}
        print(f"{name:12} alarms={sorted(alarms)} cannot_decide={sorted(broken)}")
        for p, v in {**alarms, **broken}.items():
            print(f"      {p}: {v[:230]}")
        out[name] = {"alarms": alarms, "cannot_decide": broken}
    json.dump(out, open(os.path.join(BASE, "MATRIX.json"), "w"), indent=1)


if __name__ == "__main__":
    if sys.argv[1] == "import":
        imp(sys.argv[2:])
    else:
        matrix(sys.argv[2:] or None)
