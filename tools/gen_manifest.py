#!/usr/bin/env python3
"""Regenerate /verif/MANIFEST.json from the metadata held in prsa/props/Cxx.py (CLAIMED, LEVEL, TEXT, NOTE, TECHNIQUE)."""
import importlib
import json
import os
import subprocess
import sys

VERIF = os.path.dirname(os.path.dirname(os.path.abspath(__file__)))
sys.path.insert(0, VERIF)
BASELINE = "cd /repo && /venv/bin/python -m pytest -q -p no:cacheprovider --timeout=900 --continue-on-collection-errors"


def main():
    checks, na = [], []
    for i in range(1, 21):
        pid = f"C{i:02d}"
        m = importlib.import_module(f"prsa.props.{pid}")
        if getattr(m, "CLAIMED", False):
            checks.append({
                "property_id": pid,
                "quick_cmd": f"./check {pid}",
                "thorough_cmd": f"./check {pid} --tier thorough",
                "evidence_file": f"/verif/evidence/{pid}.json",
                "replay_cmd_template": "./check replay {path}",
                "engine": "prsa",
                "level_claimed": {"category": getattr(m, "LEVEL", "other"), "text": m.TEXT, "design_ref": f"DESIGN.md §3 {pid}"},
                "level_note": m.NOTE + " Dependency closure: the value rules of every rule group that the analysed functions reach through the resolved call graph "
                                       "(metric classes, pc, generators, alphabet, ensure_numpy, _make_output, public-name resolution, ...) are run on this property's behalf "
                                       "under rule names <id>-DEP/<rule> (prsa/deps.py, DESIGN 8.8); the groups run are listed in the evidence (coverage.dependency_closure).",
                "technique": m.TECHNIQUE,
            })
        else:
            na.append({"property_id": pid, "reason": getattr(m, "NA_REASON", "rule set not completed yet; the fail-closed stub exits 2 so nothing passes vacuously")})
    fix_commits = []
    kf = json.load(open(os.path.join(VERIF, "known_findings.json")))
    man = {
        "version": 1,
        "setup_cmd": "true",
        "hooks": {
            "guard": "PYREPSEQ_VERIF",
            "enable": "none - static analysis needs no instrumentation; checks parse /repo/pyrepseq from the working tree on every run",
            "baseline_off_cmd": BASELINE,
            "source_commits": [],
            "add_only": True,
        },
        "engines": [{
            "name": "prsa",
            "path": "/verif/prsa",
            "serves_properties": [c["property_id"] for c in checks],
            "kind_free_text": "pure-stdlib ast-based static analyser written for pyrepseq: program model and resolver, gated-SSA value-provenance terms with guard contexts, rational-function and set normal forms, decision-table comparison, loop-nest enumeration forms, index-space typing / filter-guard analysis for nn.py, effect and may-raise analyses, shipped-table checks. Never imports or runs pyrepseq.",
        }],
        "checks": checks,
        "not_applicable": na,
        "notes": "Exit protocol: 0 pass (KNOWN-FINDING lines allowed), 1 + VIOLATION lines, 2 ANALYSIS-BROKEN (anchor vanished / idiom outside the closed list / floor not met). "
                 "Repairs of genuine defects are the 'fix:' commits in /repo listed as fixed in /verif/known_findings.json (" + str(len(kf.get("fixed", []))) + " entries); recorded findings: " + str(len(kf.get("known", []))) + ".",
    }
    with open(os.path.join(VERIF, "MANIFEST.json"), "w") as fh:
        json.dump(man, fh, indent=1)
    print(f"MANIFEST.json: {len(checks)} checks, {len(na)} not_applicable")


if __name__ == "__main__":
    main()
