#!/usr/bin/env python3
"""Seeded-change harness.

  tools/seeded.py verify <dir>    confirm a seeded change: existing tests still pass, demo fails with the change and passes without
  tools/seeded.py detect <dir>... run every registered check (quick tier) against a scratch copy of /repo with the patch applied
  tools/seeded.py matrix          detect for every /verif/seeded/*/ and print the catch matrix

<dir> holds patch.diff, demo.py (exit 0 = property holds) and meta.json.  Scratch copies live under a tempfile directory outside
/repo and /verif and are removed afterwards.  /repo itself is never modified.
"""
import json
import os
import shutil
import subprocess
import sys
import tempfile

VERIF = os.path.dirname(os.path.dirname(os.path.abspath(__file__)))
PY = "/venv/bin/python"
PROPS = [f"C{i:02d}" for i in range(1, 21)]


def scratch(patch=None):
    import time
    for attempt in range(6):
        d = tempfile.mkdtemp(prefix="prsa_seed_")
        # (the directory name doubles as git's worktree id: unique names keep concurrent runs out of each other's way)
        root = os.path.join(d, "wt" + os.path.basename(d)[-8:])
        try:
            subprocess.check_call(["git", "-C", "/repo", "worktree", "add", "-q", "--detach", root, "HEAD"], stderr=subprocess.DEVNULL)
            break
        except subprocess.CalledProcessError:
            shutil.rmtree(d, ignore_errors=True)
            if attempt == 5:
                raise
            time.sleep(0.5 + attempt)
    if patch:
        subprocess.check_call(["git", "-C", root, "apply", os.path.abspath(patch)])
    return d, root


def cleanup(d):
    for name in (os.listdir(d) if os.path.isdir(d) else ()):
        subprocess.call(["git", "-C", "/repo", "worktree", "remove", "--force", os.path.join(d, name)], stdout=subprocess.DEVNULL, stderr=subprocess.DEVNULL)
    shutil.rmtree(d, ignore_errors=True)


def run_tests(root):
    env = dict(os.environ, PYTHONPATH=root)
    p = subprocess.run([PY, "-m", "pytest", "-q", "-p", "no:cacheprovider", "--timeout=900", "--continue-on-collection-errors", "-x", "--co", "-q"], cwd=root, env=env, capture_output=True, text=True)
    p = subprocess.run([PY, "-m", "pytest", "-q", "-p", "no:cacheprovider", "--timeout=900", "--continue-on-collection-errors"], cwd=root, env=env, capture_output=True, text=True)
    tail = p.stdout.strip().splitlines()[-1] if p.stdout.strip() else ""
    return tail


def run_demo(root, demo):
    env = dict(os.environ, PYTHONPATH=root, MPLBACKEND="Agg")
    p = subprocess.run([PY, os.path.abspath(demo)], cwd=os.path.dirname(os.path.abspath(demo)), env=env, capture_output=True, text=True, timeout=600)
    return p.returncode, (p.stdout + p.stderr)[-400:]


def verify(d):
    patch, demo = os.path.join(d, "patch.diff"), os.path.join(d, "demo.py")
    t1, clean = scratch()
    t2, dirty = scratch(patch)
    try:
        rc_clean, out_clean = run_demo(clean, demo)
        rc_dirty, out_dirty = run_demo(dirty, demo)
        tests = run_tests(dirty)
    finally:
        cleanup(t1)
        cleanup(t2)
    ok = rc_clean == 0 and rc_dirty != 0 and "71 passed" in tests and "4 failed" in tests
    print(json.dumps({"dir": d, "demo_clean_rc": rc_clean, "demo_patched_rc": rc_dirty, "tests_patched": tests, "confirmed": ok, "patched_output": out_dirty[-200:]}, indent=1))
    return ok


def _detect_one(args):
    p, root = args
    env = dict(os.environ, PRSA_REPO=root, PYTHONDONTWRITEBYTECODE="1")
    r = subprocess.run([PY, "-S", "-c", "import sys; sys.path.insert(0, %r); from prsa.__main__ import run_property; from prsa import AnalysisBroken\n"
                        "try:\n    st, rep = run_property(%r, 'quick', 0, root=%r, write_evidence=False, quiet=True, selftest=False)\n"
                        "    print('STATUS', st, ';'.join(sorted({o.rule + ':' + o.key[:50] for o in rep.failed()})))\n"
                        "except AnalysisBroken as e:\n    print('STATUS 2', str(e)[:250])\n" % (VERIF, p, root)], capture_output=True, text=True, env=env, cwd=VERIF)
    line = [l for l in r.stdout.splitlines() if l.startswith("STATUS")]
    return p, (line[-1][7:] if line else ("crash " + r.stderr[-300:]))


def detect(d, props=PROPS):
    from concurrent.futures import ThreadPoolExecutor
    patch = os.path.join(d, "patch.diff")
    t, root = scratch(patch)
    try:
        with ThreadPoolExecutor(max_workers=16) as ex:
            res = dict(ex.map(_detect_one, [(p, root) for p in props]))
    finally:
        cleanup(t)
    return res


def main(argv):
    if argv[0] == "verify":
        sys.exit(0 if all(verify(d) for d in argv[1:]) else 1)
    if argv[0] == "detect":
        for d in argv[1:]:
            res = detect(d)
            fired = {p: v for p, v in res.items() if not v.startswith("0")}
            print(d, "->", json.dumps(fired) if fired else "NOT DETECTED")
    if argv[0] == "matrix":
        base = os.path.join(VERIF, "seeded")
        out = {}
        for name in sorted(os.listdir(base)):
            d = os.path.join(base, name)
            if os.path.isdir(d) and os.path.exists(os.path.join(d, "patch.diff")):
                meta = json.load(open(os.path.join(d, "meta.json")))
                res = detect(d)
                fired = {p: v for p, v in res.items() if v.startswith("1")}
                broken = {p: v for p, v in res.items() if v.startswith("2") or v.startswith("crash")}
                own = meta.get("property")
                print(f"{name:34} prop={own} caught_by_own={'yes' if own in fired else 'NO '} fired={sorted(fired)} broken={sorted(broken)}")
                out[name] = {"property": own, "fired": fired, "broken": broken}
        json.dump(out, open(os.path.join(base, "MATRIX.json"), "w"), indent=1)


if __name__ == "__main__":
    main(sys.argv[1:])
