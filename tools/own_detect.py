"""Developer helper: tools/own_detect.py [names...] - run the own property check (quick) of each seeded/<name> on a scratch copy; default: names ending sj sk sl."""
import sys, os, json
sys.path.insert(0, '/verif/tools')
import seeded
from concurrent.futures import ThreadPoolExecutor
names = sys.argv[1:] or sorted(n for n in os.listdir('/verif/seeded') if n[-2:] in ('sj','sk','sl'))
def one(n):
    d = os.path.join('/verif/seeded', n)
    own = n.split('-')[0]
    t, root = seeded.scratch(os.path.join(d, 'patch.diff'))
    try:
        p, v = seeded._detect_one((own, root))
    finally:
        seeded.cleanup(t)
    return n, v
with ThreadPoolExecutor(8) as ex:
    for n, v in ex.map(one, names):
        print(n, v[:230])
