#!/usr/bin/env python3
"""tools/mutsweep.py <Cxx> [--own] [--max N] [--only substring] [--undecided] : developer entry of prsa/mutsweep.py (syntactic mutation sweep)."""
import os
import sys
sys.path.insert(0, os.path.dirname(os.path.dirname(os.path.abspath(__file__))))
from prsa.mutsweep import main
if __name__ == "__main__":
    main(sys.argv[1:])
