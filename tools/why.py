#!/usr/bin/env python3
"""tools/why.py <patch-dir> <Cxx> : apply the patch to a scratch worktree and print the property's failed obligations in full."""
import os, sys
sys.path.insert(0, os.path.dirname(os.path.abspath(__file__)))
import seeded
sys.path.insert(0, seeded.VERIF)
d, props = sys.argv[1], sys.argv[2:]
t, root = seeded.scratch(os.path.join(d, "patch.diff"))
try:
    from prsa.__main__ import run_property
    from prsa import AnalysisBroken, model
    for p in props:
        model._PROGRAM_CACHE.clear()
        try:
            st, rep = run_property(p, "quick", 0, root=root, write_evidence=False, quiet=True, selftest=False)
            print(p, "status", st, "deferred:", rep.deferred)
            for o in rep.failed():
                e, g = o.expected, o.found
                i = next((k for k in range(min(len(e), len(g))) if e[k] != g[k]), min(len(e), len(g)))
                j = max(0, i - 200) if len(e) > 700 else 0
                print(f"  {o.rule} | {o.construct} | {o.what[:160]}\n     where {o.where}\n     EXP[{j}:] {e[j:j+700]}\n     GOT[{j}:] {g[j:j+700]}")
        except AnalysisBroken as e:
            print(p, "BROKEN", str(e)[:600])
finally:
    seeded.cleanup(t)
