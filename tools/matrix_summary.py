"""Developer helper: summary of the two corpus matrices (reads copies of the matrix outputs: /tmp/refmat.txt, /tmp/seedmat.txt)."""
import re
def parse(path, pat):
    rows={}
    cur=None
    for l in open(path):
        m=re.match(pat,l)
        if m:
            cur=m.group(1); rows[cur]={'al':eval(m.group(2)),'cd':eval(m.group(3)),'detail':[]}
        elif cur and l.startswith('      '):
            rows[cur]['detail'].append(l.strip()[:230])
    return rows
R=parse('/tmp/refmat.txt', r'^(C\d\d-r[0-9a-z])\s+alarms=(\[.*?\]) cannot_decide=(\[.*?\])')
sil=[k for k,v in R.items() if not v['al'] and not v['cd']]
und=[k for k,v in R.items() if not v['al'] and v['cd']]
al=[k for k,v in R.items() if v['al']]
print('refactors',len(R),'silent',len(sil),'undecided',len(und),'alarms',len(al))
for k in al:
    print(k, R[k]['al'])
    for d in R[k]['detail']:
        if d[:3] in R[k]['al']: print('    ',d)
for grp in ("r1","r2","r3","r4","r5","r6","r7","r8","r9","ra","rb","rc","rd"):
    ks=[k for k in R if k.endswith(grp)]
    print(grp, 'silent',sum(1 for k in ks if k in sil),'undecided',sum(1 for k in ks if k in und), 'alarm', sum(1 for k in ks if k in al))
S={}
for l in open('/tmp/seedmat.txt'):
    m=re.match(r'^(C\d\d-s[0-9a-z])\s+prop=(C\d\d) caught_by_own=(\w+)\s+fired=(\[.*?\]) broken=(\[.*?\])',l)
    if m: S[m.group(1)]=(m.group(3),eval(m.group(4)),eval(m.group(5)))
print('seeds',len(S),'own VIOLATION',sum(1 for v in S.values() if v[0]=='yes'))
und=[k for k,v in S.items() if v[0]!='yes' and k[:3] in v[2]]
sil=[k for k,v in S.items() if v[0]!='yes' and k[:3] not in v[2]]
print('undecided',und); print('silent',sil)
for grp in ("s1","s2","s3","s4","s5","s6","s7","s8","sa","sb","sc","sd","se","sf","sg","sh","si"):
    ks=[k for k in S if k.endswith(grp)]
    print(grp,'caught',sum(1 for k in ks if S[k][0]=='yes'),'undecided',sum(1 for k in ks if k in und),'silent',sum(1 for k in ks if k in sil))
