#!/usr/bin/env python3
"""Record, for every specification comparison, the vocabulary (callables, methods, term shapes) of the code on the CURRENT tree.
Run only on a tree on which every check passes; the result (prsa/baseline_vocab.json) is committed and read-only for the checks."""
import json, os, sys
VERIF = os.path.dirname(os.path.dirname(os.path.abspath(__file__)))
sys.path.insert(0, VERIF)
os.environ["PRSA_RECORD_VOCAB"] = "1"
from prsa.__main__ import run_property  # noqa: E402
from prsa import rules  # noqa: E402

for i in range(1, 21):
    p = f"C{i:02d}"
    st, rep = run_property(p, "quick", 0, write_evidence=False, quiet=True, selftest=False)
    if st != 0:
        sys.exit(f"{p} does not pass on this tree; refusing to record a baseline")
from prsa.model import load_program  # noqa: E402
out = {k: [list(v) for v in vs] for k, vs in sorted(rules._RECORDED.items())}
_P = load_program()
out["__functions__"] = sorted(_P.functions)
out["__module_vars__"] = sorted(_P.module_vars)
from prsa.model import function_tokens  # noqa: E402
out["__function_tokens__"] = {q: function_tokens(f.node) for q, f in sorted(_P.functions.items())}
json.dump(out, open(os.path.join(VERIF, "prsa", "baseline_vocab.json"), "w"), indent=0)
print(len(rules._RECORDED), "comparisons recorded")
