#!/usr/bin/env python3
"""tools/dbg.py <patch-dir|-> <Cxx> <python-file|-c code> : build a Run on the patched scratch tree and exec a debugging snippet with `r` bound."""
import os, sys
sys.path.insert(0, os.path.dirname(os.path.abspath(__file__)))
import seeded
sys.path.insert(0, seeded.VERIF)
d, prop, code = sys.argv[1], sys.argv[2], sys.argv[3]
_wt = None
root = None
if d != "-":
    _wt, root = seeded.scratch(os.path.join(d, "patch.diff"))
try:
    from prsa.__main__ import Run
    from prsa.terms import *
    from prsa import rules, constfold, nnabs
    r = Run(prop, "quick", 0, root=root)
    src = open(code).read() if os.path.exists(code) else code
    exec(src)
finally:
    if _wt:
        seeded.cleanup(_wt)
