#!/usr/bin/env python3
"""tools/seed_table.py [suffixes...] : markdown rows for DESIGN 8.3 from seeded/*/meta.json and seeded/MATRIX.json."""
import json, os, sys
V = os.path.dirname(os.path.dirname(os.path.abspath(__file__)))
m = json.load(open(os.path.join(V, "seeded", "MATRIX.json")))
suf = tuple(sys.argv[1:]) or ("",)
print("| seeded change | what it does | needs | own rules that fire | also fires |\n|---|---|---|---|---|")
for name in sorted(m):
    if not name.endswith(suf):
        continue
    meta = json.load(open(os.path.join(V, "seeded", name, "meta.json")))
    prop = meta.get("property", name[:3])
    fired = m[name].get("fired", {})
    own = fired.get(prop, "")
    rules = ";".join(sorted({x.split(":")[0] for x in own.split(" ", 1)[-1].split(";") if x})) if own else ("cannot decide" if prop in m[name].get("broken", {}) else "-")
    others = ", ".join(sorted(p for p in fired if p != prop)) or "-"
    what = (meta.get("defect") or meta.get("what") or meta.get("title") or meta.get("summary") or "").replace("|", "/").replace("\n", " ")[:150]
    needs = (meta.get("failing_input") or meta.get("needs") or "")
    needs = (needs if isinstance(needs, str) else json.dumps(needs)).replace("|", "/").replace("\n", " ")[:150]
    print(f"| {name} | {what} | {needs} | {rules} | {others} |")
