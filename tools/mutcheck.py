#!/usr/bin/env python3
"""tools/mutcheck.py <patch-dir> <Cxx> <relpath> <old> <new> : apply the (behaviour-preserving) patch to a scratch worktree, then break it by a
text substitution, and print the property's verdict - a refactored tree must still be checked, not merely tolerated."""
import os, sys
sys.path.insert(0, os.path.dirname(os.path.abspath(__file__)))
import seeded
sys.path.insert(0, seeded.VERIF)
d, prop, rel, old, new = sys.argv[1:6]
t, root = seeded.scratch(os.path.join(d, "patch.diff")) if d != "-" else seeded.scratch()
try:
    fp = os.path.join(root, rel)
    src = open(fp).read()
    if old not in src:
        print("PATTERN NOT FOUND")
        sys.exit(3)
    open(fp, "w").write(src.replace(old, new, 1))
    from prsa.__main__ import run_property
    from prsa import AnalysisBroken
    try:
        st, rep = run_property(prop, "quick", 0, root=root, write_evidence=False, quiet=True, selftest=False)
        print(prop, "status", st, "deferred:", [x[:120] for x in rep.deferred])
        for o in rep.failed()[:6]:
            print(f"  {o.rule} | {o.construct} | {o.what[:140]}\n     GOT {o.found[:200]}")
    except AnalysisBroken as e:
        print(prop, "BROKEN", str(e)[:400])
finally:
    seeded.cleanup(t)
