"""Developer helper: tools/partial_matrix.py [names...] - all 20 checks against the named seeded changes, merged into seeded/MATRIX.json."""
import sys, os, json
sys.path.insert(0, '/verif/tools')
import seeded
base = '/verif/seeded'
names = sys.argv[1:] or sorted(n for n in os.listdir(base) if n[-2:] in ('sj','sk','sl'))
mp = os.path.join(base, 'MATRIX.json')
out = json.load(open(mp))
for name in names:
    d = os.path.join(base, name)
    meta = json.load(open(os.path.join(d, 'meta.json')))
    res = seeded.detect(d)
    fired = {p: v for p, v in res.items() if v.startswith('1')}
    broken = {p: v for p, v in res.items() if v.startswith('2') or v.startswith('crash')}
    own = meta.get('property')
    print(f"{name:12} prop={own} caught_by_own={'yes' if own in fired else 'NO '} fired={sorted(fired)} broken={sorted(broken)}", flush=True)
    out[name] = {'property': own, 'fired': fired, 'broken': broken}
    json.dump(out, open(mp, 'w'), indent=1)
