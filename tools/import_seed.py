#!/usr/bin/env python3
"""Import sub-agent output /tmp/seed/<ID>/out/{patchK.diff,demoK.py,metaK.json} into /verif/seeded/<ID>-sK/ after confirming it here."""
import json, os, shutil, subprocess, sys
sys.path.insert(0, os.path.dirname(os.path.abspath(__file__)))
import seeded

def main(ids):
    # --slots 1:j,2:k,3:l  stores out/patch1.diff as <ID>-sj, ... (later rounds reuse the file names 1..3)
    remap = {}
    if ids and ids[0] == "--slots":
        remap = dict(x.split(":") for x in ids[1].split(","))
        ids = ids[2:]
    for pid in ids:
        src = f"/tmp/seed/{pid}/out"
        for k in (1, 2, 3, 4, 5, 6, 7, 8, 9, "a", "b", "c", "d", "e", "f", "g", "h", "i"):
            p, d, m = (os.path.join(src, f"{n}{k}.{e}") for n, e in (("patch", "diff"), ("demo", "py"), ("meta", "json")))
            if not (os.path.exists(p) and os.path.exists(d)):
                continue
            dst = os.path.join(seeded.VERIF, "seeded", f"{pid}-s{remap.get(str(k), k)}")
            tmp = dst + ".tmp"
            shutil.rmtree(tmp, ignore_errors=True)
            os.makedirs(tmp)
            shutil.copy(p, os.path.join(tmp, "patch.diff"))
            shutil.copy(d, os.path.join(tmp, "demo.py"))
            meta = {}
            if os.path.exists(m):
                try:
                    meta = json.load(open(m))
                except Exception:
                    meta = {"raw": open(m).read()[:2000]}
            meta["property"] = pid
            meta["source"] = "independent sub-agent given only the property text and a scratch worktree"
            t1, clean = seeded.scratch()
            try:
                t2, dirty = seeded.scratch(os.path.join(tmp, "patch.diff"))
            except subprocess.CalledProcessError:
                print(pid, k, "patch does not apply"); seeded.cleanup(t1); shutil.rmtree(tmp); continue
            try:
                rc_clean, _ = seeded.run_demo(clean, os.path.join(tmp, "demo.py"))
                rc_dirty, out_dirty = seeded.run_demo(dirty, os.path.join(tmp, "demo.py"))
                tests = seeded.run_tests(dirty)
            finally:
                seeded.cleanup(t1); seeded.cleanup(t2)
            ok = rc_clean == 0 and rc_dirty != 0 and "71 passed" in tests and "4 failed" in tests
            meta["confirmed_here"] = {"demo_exit_on_clean_tree": rc_clean, "demo_exit_with_patch": rc_dirty, "existing_suite_with_patch": tests,
                                      "commands": ["git worktree add <scratch> HEAD; git apply patch.diff", "PYTHONPATH=<scratch> /venv/bin/python demo.py", "PYTHONPATH=<scratch> /venv/bin/python -m pytest -q -p no:cacheprovider --timeout=900 --continue-on-collection-errors"]}
            json.dump(meta, open(os.path.join(tmp, "meta.json"), "w"), indent=1)
            if ok:
                shutil.rmtree(dst, ignore_errors=True)
                os.rename(tmp, dst)
                print(pid, k, "CONFIRMED ->", dst)
            else:
                print(pid, k, "NOT confirmed:", rc_clean, rc_dirty, tests, out_dirty[-150:].replace("\n", " "))
                shutil.rmtree(tmp)

main(sys.argv[1:])
