import ast, pathlib, collections
root=pathlib.Path('/repo/pyrepseq'); c=collections.Counter(); fn=0; pub=0; calls=0; byfile={}
for p in sorted(root.rglob('*.py')):
    t=ast.parse(p.read_text())
    k=collections.Counter(type(n).__name__ for n in ast.walk(t) if isinstance(n,(ast.stmt,ast.Lambda,ast.ListComp,ast.GeneratorExp,ast.DictComp,ast.SetComp,ast.IfExp,ast.Starred,ast.JoinedStr,ast.NamedExpr,ast.Await,ast.Yield,ast.YieldFrom)))
    c+=k
    fs=[n for n in ast.walk(t) if isinstance(n,ast.FunctionDef)]
    byfile[str(p.relative_to(root))]=(len(fs), sum(1 for f in fs if not f.name.startswith('_')), sum(isinstance(n,ast.Call) for n in ast.walk(t)))
print(c); 
for k,v in byfile.items(): print(k,v)
print('total funcs',sum(v[0] for v in byfile.values()),'public',sum(v[1] for v in byfile.values()),'calls',sum(v[2] for v in byfile.values()))
