import warnings; warnings.filterwarnings("ignore")
import numpy as np, pandas as pd, traceback
import pyrepseq as prs
from pyrepseq.nn import LookupDB, SymdelDB, kdtree, hash_based, symdel, nearest_neighbor
def t(name, f):
    try:
        print(name, '->', f())
    except Exception as e:
        print(name, 'RAISED', type(e).__name__, str(e)[:200])
s=["CAAA","CADA","CDDD","CAAK"]
for idx in ([1,2,3,4],[3,2,1,0],list("wxyz")):
    ser=pd.Series(s,index=idx)
    for alg in (symdel,hash_based,kdtree):
        t(f'{alg.__name__} idx={idx}', lambda: sorted(alg(ser)))
    t(f'symdel seqs2 idx={idx}', lambda: sorted(symdel(s, seqs2=ser)))
# C08 dtype
from pyrepseq.metric import Levenshtein, WeightedLevenshtein
a="A"*400; b="C"*400
t('Lev long', lambda: (Levenshtein().calc_cdist_matrix([a],[b]), Levenshtein().calc_cdist_matrix([a],[b]).dtype))
t('WLev long', lambda: (WeightedLevenshtein(2,3,4).calc_cdist_matrix([a],[b+"CC"]), WeightedLevenshtein(2,3,4).calc_cdist_matrix([a],[b]).dtype))
t('WLev asym', lambda: WeightedLevenshtein(1,5,9).calc_cdist_matrix(["AB"],["ABC","A"]))
t('WLev pdist asym', lambda: WeightedLevenshtein(1,5,9).calc_pdist_vector(["AB","ABC","A"]))
t('pdist long', lambda: prs.pdist([a,b]))
# C09
df=pd.DataFrame(dict(TRAV=["TRAV1-1*01","TRAV1-2*01","TRAV10*01"],CDR3A=["CAAA","CADA","CAAK"],TRBV=["TRBV2*01","TRBV9*01","TRBV30*01"],CDR3B=["CASS","CASD","CAWS"]))
from pyrepseq.metric.tcr_metric import *
t('CdrLev default idx', lambda: CdrLevenshtein().calc_cdist_matrix(df,df))
d2=df.copy(); d2.index=[5,5,7]
t('CdrLev dup idx', lambda: CdrLevenshtein().calc_cdist_matrix(d2,d2))
d3=df.copy(); d3.index=[2,0,1]
t('CdrLev perm idx', lambda: CdrLevenshtein().calc_cdist_matrix(d3,d3))
t('Cdr3Lev dup idx', lambda: Cdr3Levenshtein().calc_cdist_matrix(d2,d2))
t('weights dtype', lambda: (CdrLevenshtein(alpha_weight=100,cdr3_weight=100).calc_cdist_matrix(df,df)))
t('weights dtype', lambda: (Cdr3Levenshtein(insertion_weight=2,deletion_weight=2,alpha_weight=100).calc_cdist_matrix(df,df).dtype))
