import warnings; warnings.filterwarnings("ignore")
import itertools, numpy as np
from Levenshtein import distance as lev, hamming
import pyrepseq as prs
from pyrepseq.distance import *
from pyrepseq.nn import _comb_gen, _generate_neighbors
# exhaustive C12 small
for alpha in ["A","AB","ABC"]:
    for n in range(0,5):
        for x in map(''.join, itertools.product(alpha, repeat=n)):
            got=list(levenshtein_neighbors(x, alpha))
            assert len(got)==len(set(got)),(x,alpha)
            # all strings up to n+1
            exp={y for m in range(max(0,n-1),n+2) for y in map(''.join,itertools.product(alpha,repeat=m)) if lev(x,y)==1}
            assert set(got)==exp,(x,alpha,set(got)^exp)
            got=list(hamming_neighbors(x, alpha)); assert len(got)==len(set(got))
            exp={y for y in map(''.join,itertools.product(alpha,repeat=n)) if hamming(x,y)==1}
            assert set(got)==exp
print("C12 gens ok")
# search engines small exhaustive
import random
from pyrepseq.nn import symdel, hash_based, kdtree
alpha="ACD"
allstr=[''.join(p) for n in range(0,4) for p in itertools.product(alpha,repeat=n)]
def brute(s,k,dist=lev):
    return sorted((i,j,dist(s[i],s[j])) for i in range(len(s)) for j in range(len(s)) if i!=j and dist(s[i],s[j])<=k)
for k in (1,2,3):
    for alg in (symdel,hash_based,kdtree):
        try:
            r=sorted(alg(allstr,max_edits=k))
            print(k,alg.__name__, r==brute(allstr,k), len(r))
        except Exception as e: print(k,alg.__name__,'RAISED',type(e).__name__,e)
# kdtree compression & max_returns
seqs=[''.join(random.choice("ACDEFGHIKLMNPQRSTVWY") for _ in range(random.randint(3,6))) for _ in range(200)]
b=brute(seqs,2)
for c in (1,2,3,7,20,25):
    print('compression',c, sorted(kdtree(seqs,max_edits=2,compression=c))==b)
print('n_cpu 3', sorted(kdtree(seqs,max_edits=2,n_cpu=3))==b)
r=kdtree(seqs,max_edits=2,max_returns=1)
from collections import Counter
cnt=Counter(i for i,j,d in r); bc=Counter(i for i,j,d in b)
print('max_returns ok', all(cnt[i]==min(1,bc[i]) for i in range(len(seqs))), all(d==min(dd for ii,jj,dd in b if ii==i) for i,j,d in r))
