import ast, sys, symtable, builtins, pathlib
root=pathlib.Path('/repo/pyrepseq')
for p in sorted(root.rglob('*.py')):
    src=p.read_text(); tree=ast.parse(src)
    # module-level names
    modnames=set(dir(builtins))
    star=False
    for n in ast.walk(tree):
        if isinstance(n,(ast.Import,ast.ImportFrom)):
            for a in n.names:
                if a.name=='*': star=True
                modnames.add((a.asname or a.name).split('.')[0])
    for n in tree.body:
        if isinstance(n,(ast.FunctionDef,ast.ClassDef)): modnames.add(n.name)
        for t in ast.walk(n) if isinstance(n,(ast.Assign,ast.AugAssign,ast.AnnAssign,ast.For,ast.With,ast.Try,ast.If)) else []:
            if isinstance(t,ast.Name) and isinstance(t.ctx,ast.Store): modnames.add(t.id)
    st=symtable.symtable(src,str(p),'exec')
    def walk(t,depth=0):
        for c in t.get_children():
            if c.get_type()=='function':
                for s in c.get_symbols():
                    if s.is_global() and not s.is_declared_global() and s.is_referenced() and s.get_name() not in modnames:
                        print(f'{p.relative_to(root)}:{c.get_lineno()} {c.get_name()}: unresolved global {s.get_name()} star={star}')
                    if s.is_declared_global():
                        print(f'{p.relative_to(root)}:{c.get_lineno()} {c.get_name()}: declares global {s.get_name()}')
                    if s.is_parameter() and not s.is_referenced() and s.get_name() not in ('self','cls'):
                        print(f'{p.relative_to(root)}:{c.get_lineno()} {c.get_name()}: unused parameter {s.get_name()}')
            walk(c,depth+1)
    walk(st)
    # mutable defaults
    for n in ast.walk(tree):
        if isinstance(n,(ast.FunctionDef,ast.Lambda)):
            a=n.args
            for d in a.defaults+[k for k in a.kw_defaults if k]:
                if isinstance(d,(ast.Dict,ast.List,ast.Set)) or (isinstance(d,ast.Call) and getattr(d.func,'id',getattr(d.func,'attr',''))in('dict','list','set','arange','array')):
                    print(f'{p.relative_to(root)}:{n.lineno} {getattr(n,"name","<lambda>")}: mutable default {ast.unparse(d)}')
