# feasibility prototype: rational-function normal form over power-sum atoms
import ast, sys
from fractions import Fraction as F
from collections import defaultdict
class Poly:
    # dict: monomial(tuple of (atom,exp) sorted) -> Fraction
    def __init__(s,d=None): s.d={k:v for k,v in (d or {}).items() if v!=0}
    @staticmethod
    def const(c): return Poly({():F(c)})
    @staticmethod
    def atom(a): return Poly({((a,1),):F(1)})
    def __add__(s,o):
        d=defaultdict(F,s.d)
        for k,v in o.d.items(): d[k]+=v
        return Poly(d)
    def __neg__(s): return Poly({k:-v for k,v in s.d.items()})
    def __sub__(s,o): return s+(-o)
    def __mul__(s,o):
        d=defaultdict(F)
        for k1,v1 in s.d.items():
            for k2,v2 in o.d.items():
                m=defaultdict(int)
                for a,e in k1+k2: m[a]+=e
                d[tuple(sorted((a,e) for a,e in m.items() if e))]+=v1*v2
        return Poly(d)
    def __eq__(s,o): return s.d==o.d
    def __repr__(s): return ' + '.join(f'{v}*{"*".join(f"{a}^{e}" for a,e in k) or "1"}' for k,v in sorted(s.d.items())) or '0'
class RF:
    def __init__(s,n,d=None): s.n=n; s.d=d or Poly.const(1)
    def __add__(s,o): return RF(s.n*o.d+o.n*s.d, s.d*o.d)
    def __sub__(s,o): return RF(s.n*o.d-o.n*s.d, s.d*o.d)
    def __mul__(s,o): return RF(s.n*o.n, s.d*o.d)
    def __truediv__(s,o): return RF(s.n*o.d, s.d*o.n)
    def __neg__(s): return RF(-s.n,s.d)
    def __pow__(s,k):
        r=RF(Poly.const(1))
        for _ in range(abs(k)): r=r*s
        return r if k>=0 else RF(r.d,r.n)
    def same(s,o): return s.n*o.d==o.n*s.d
# vector polynomial in one vector var: dict exp->RF scalar coefficient
class Vec:
    def __init__(s,c): s.c=c  # {exp: RF}
def ev(e,env,vecs):
    if isinstance(e,ast.Constant): return RF(Poly.const(F(e.value) if not isinstance(e.value,float) else F(e.value).limit_denominator(10**9)))
    if isinstance(e,ast.Name):
        if e.id in env: return env[e.id]
        if e.id in vecs: return Vec({1:RF(Poly.const(1))})
        return RF(Poly.atom(e.id))
    if isinstance(e,ast.UnaryOp) and isinstance(e.op,ast.USub):
        v=ev(e.operand,env,vecs); return -v if isinstance(v,RF) else Vec({k:-c for k,c in v.c.items()})
    if isinstance(e,ast.BinOp):
        l,r=ev(e.left,env,vecs),ev(e.right,env,vecs)
        op=type(e.op)
        if op is ast.Pow:
            assert isinstance(r,RF) and len(r.n.d)<=1 and r.d==Poly.const(1)
            k=r.n.d.get((),F(0)); 
            if k.denominator!=1: return RF(Poly.atom(f'pow({l.n!r}/{l.d!r},{k})'))
            k=int(k)
            if isinstance(l,RF): return l**k
            out=Vec({0:RF(Poly.const(1))})
            for _ in range(k): out=vmul(out,l)
            return out
        if isinstance(l,RF) and isinstance(r,RF):
            return {ast.Add:l.__add__,ast.Sub:l.__sub__,ast.Mult:l.__mul__,ast.Div:l.__truediv__}[op](r)
        if isinstance(l,RF): l=Vec({0:l})
        if isinstance(r,RF): r=Vec({0:r})
        if op is ast.Add: return vadd(l,r)
        if op is ast.Sub: return vadd(l,Vec({k:-c for k,c in r.c.items()}))
        if op is ast.Mult: return vmul(l,r)
        if op is ast.Div:
            assert set(r.c)=={0}; return Vec({k:c/r.c[0] for k,c in l.c.items()})
    if isinstance(e,ast.Call):
        fn=ast.unparse(e.func)
        if fn in ('np.sum','sum'):
            v=ev(e.args[0],env,vecs)
            out=RF(Poly.const(0))
            for k,c in v.c.items(): out=out+c*RF(Poly.atom(f'P{k}'))
            return out
    raise NotImplementedError(ast.dump(e))
def vadd(a,b):
    c=dict(a.c)
    for k,v in b.c.items(): c[k]=c[k]+v if k in c else v
    return Vec(c)
def vmul(a,b):
    c={}
    for k1,v1 in a.c.items():
        for k2,v2 in b.c.items():
            c[k1+k2]=c[k1+k2]+v1*v2 if k1+k2 in c else v1*v2
    return Vec(c)
def run(src,fname,vecs):
    tree=ast.parse(src)
    fn=[n for n in ast.walk(tree) if isinstance(n,ast.FunctionDef) and n.name==fname][0]
    env={}
    for st in fn.body:
        if isinstance(st,ast.Assign): env[st.targets[0].id]=ev(st.value,env,vecs)
        elif isinstance(st,ast.Return): return ev(st.value,env,vecs)
src=open('/repo/pyrepseq/stats.py').read()
code=run(src,'varpc_n',{'n'})
spec=run('''
def spec(n):
    N = np.sum(n)
    S2 = np.sum(n*n) - np.sum(n)
    S3 = np.sum(n*n*n) - 3*np.sum(n*n) + 2*np.sum(n)
    p2 = S2/(N*(N-1))
    p3 = S3/(N*(N-1)*(N-2))
    a = 4*(N-2)/(N*(N-1)); b = 2/(N*(N-1)); c = 2*(2*N-3)/(N*(N-1))
    z = c/(1-c)
    return (1+z)*(a*p3 + b*p2) - z*p2*p2
'''.replace('; ','\n    '),'spec',{'n'})
print('varpc_n == spec:', code.same(spec))
bad=run(src.replace('beta = 2 * (2 * N - 3)','beta = 2 * (2 * N - 2)'),'varpc_n',{'n'})
print('mutant == spec:', bad.same(spec))
print('pc_n:', run(src.replace('n = ensure_numpy(n)','pass'),'pc_n',{'n'}).same(run('def s(n):\n    return (np.sum(n**2)-np.sum(n))/(np.sum(n)**2-np.sum(n))','s',{'n'})))
