import csv, inspect
for ch in ("alpha","beta"):
    rows=list(csv.reader(open(f"/repo/pyrepseq/data/vdists_{ch}.csv")))
    cols=rows[0][1:]; idx=[r[0] for r in rows[1:]]
    M=[[float(v) for v in r[1:]] for r in rows[1:]]
    n=len(idx)
    print(ch, n, len(cols), cols==idx, all(M[i][i]==0 for i in range(n)), all(M[i][j]==M[j][i] for i in range(n) for j in range(n)), all(float(v).is_integer() for r in M for v in r), max(max(r) for r in M))
rows=list(csv.reader(open("/repo/pyrepseq/data/pcdelta_pbmc_minervina.csv")))
print(rows[0], [r[0] for r in rows[1:]]==[str(i) for i in range(len(rows)-1)], len(rows)-1)
import rapidfuzz.process as p
print(inspect.signature(p.extract)); print(inspect.signature(p.cdist))
print(p.cdist.__doc__[:3000])
