import warnings; warnings.filterwarnings("ignore")
import numpy as np, pandas as pd, traceback
import pyrepseq as prs
from pyrepseq.nn import LookupDB, SymdelDB, kdtree, hash_based, symdel, nearest_neighbor
def t(name, f):
    try:
        print(name, '->', f())
    except Exception as e:
        print(name, 'RAISED', type(e).__name__, e)
# C03 LookupDB equal positions
t('LookupDB q==r', lambda: LookupDB(["CAAA","CDDD"]).lookup(["CAAA","CDDD"], max_edits=1))
t('SymdelDB q==r', lambda: SymdelDB(["CAAA","CDDD"],1).lookup(["CAAA","CDDD"]))
# C07 kdtree hamming mixed lengths
seqs=["CAAAD","CAAA","CADA","CAAAE"]
t('kdtree hamming', lambda: sorted(kdtree(seqs, custom_distance='hamming')))
t('symdel hamming', lambda: sorted(symdel(seqs, custom_distance='hamming')))
t('hash hamming', lambda: sorted(hash_based(seqs, custom_distance='hamming')))
# C11 n_cpu > len
t('kdtree n_cpu=4 len3', lambda: sorted(kdtree(["CAAA","CADA","CDDD"], n_cpu=4)))
t('kdtree n_cpu=2 len3', lambda: sorted(kdtree(["CAAA","CADA","CDDD"], n_cpu=2)))
t('kdtree n_cpu=2 len5', lambda: sorted(kdtree(["CAAA","CADA","CDDD","CAAK","CAAD"], n_cpu=2)))
# C14 symdel custom
from Levenshtein import distance
sc=lambda a,b: 5*distance(a,b)
s4=["CAAA","CADA","CDDA","CAAK"]
t('symdel scaled inf', lambda: sorted(symdel(s4, custom_distance=sc)))
t('kdtree scaled inf', lambda: sorted(kdtree(s4, custom_distance=sc)))
t('hash scaled inf', lambda: sorted(hash_based(s4, custom_distance=sc)))
t('symdel scaled 10', lambda: sorted(symdel(s4, custom_distance=sc, max_custom_distance=10)))
t('kdtree scaled 10', lambda: sorted(kdtree(s4, custom_distance=sc, max_custom_distance=10)))
t('hash scaled 10', lambda: sorted(hash_based(s4, custom_distance=sc, max_custom_distance=10)))
# C16
t('var_chao1', lambda: prs.var_chao1([4,2,1]))
t('var_chao2', lambda: prs.var_chao2([4,2,1],3))
t('var_chao2 nan', lambda: prs.var_chao2([4,0,1],3))
# C15 empty neighbors
t('graph_clustering empty', lambda: prs.graph_clustering([], ["a","b"]))
t('graph_clustering', lambda: prs.graph_clustering(symdel(s4), s4))
