import warnings; warnings.filterwarnings("ignore")
import numpy as np, pandas as pd
import matplotlib; matplotlib.use("Agg")
import pyrepseq.plotting as pp
print(pp.similarity_clustermap.__defaults__)
df=pd.DataFrame(dict(cdr3a=["CAAA","CADA","CDDD","CAAK"],cdr3b=["CASS","CASD","CAWS","CASS"]))
pp.similarity_clustermap(df)
print([d for d in pp.similarity_clustermap.__defaults__ if isinstance(d,dict)])
o=pp.density_scatter([1,1,2],[1,1,3],discrete=True); print(o.collections[-1].get_offsets(), o.collections[-1].get_array())
