import warnings; warnings.filterwarnings("ignore")
import numpy as np, pandas as pd, traceback, re
import matplotlib; matplotlib.use("Agg")
import pyrepseq as prs, pyrepseq.plotting as pp
def t(name, f):
    try:
        r=f(); print(name, '->', repr(r)[:600])
    except Exception as e:
        print(name, 'RAISED', type(e).__name__, str(e)[:300])
t('regex', lambda: prs.seqs_to_regex(["CAF","CDF","CAW"],align=False))
t('regex gaps', lambda: prs.seqs_to_regex(["CAF","C-F","CAW"],align=False))
t('consensus', lambda: prs.seqs_to_consensus(["CAF","CDF","CAW"],align=False))
t('consensus gaps', lambda: prs.seqs_to_consensus(["C-F","C-F","CAW"],align=False))
import inspect
print(pp.similarity_clustermap.__defaults__[5])
df=pd.DataFrame(dict(cdr3a=["CAAA","CADA","CDDD","CAAK"],cdr3b=["CASS","CASD","CAWS","CASS"]))
t('clustermap', lambda: pp.similarity_clustermap(df)[1:])
print(pp.similarity_clustermap.__defaults__[5])
t('colors', lambda: pp.labels_to_colors_hls(["a","b","a","c"],min_count=2))
t('colors tab', lambda: pp.labels_to_colors_tableau(["a","b","a","c"],min_count=2))
t('rankfreq', lambda: pp.rankfrequency([3,1,np.nan,2])[0].get_xydata())
t('density', lambda: pp.density_scatter([1,1,2],[1,1,3],discrete=True).collections[0].get_offsets())
t('mle simple', lambda: prs.powerlaw_mle_alpha([1,2,3,4,10],method='simple'))
t('mle cc', lambda: prs.powerlaw_mle_alpha([1,2,3,4,10],method='continuitycorrection'))
t('mle exact', lambda: prs.powerlaw_mle_alpha([1,2,3,4,10]))
d=pd.DataFrame(dict(TRBV=["TRBV7-2*01",None,"junk"],CDR3B=["CASSF",np.nan,"xx"],x=[1,2,3]),index=[7,8,9])
t('std', lambda: prs.standardize_dataframe(d,suppress_warnings=True))
t('std false', lambda: prs.standardize_dataframe(d,standardize=False).equals(d))
t('multimerge', lambda: prs.multimerge([pd.DataFrame(dict(k=[1,2],a=[3,4])),pd.DataFrame(dict(k=[2,3],a=[5,6]))],'k',suffixes=['x','y']))
