import ast, pathlib
root=pathlib.Path('/repo/pyrepseq')
MUT={'append','extend','update','pop','popitem','sort','setdefault','clear','remove','insert','fill','add','discard','reverse','put','itemset','resize','setflags','drop_duplicates?','__setitem__'}
EXT_MUT={'shuffle','fill_diagonal','setp','put','place','copyto','putmask'}
for p in sorted(root.rglob('*.py')):
    tree=ast.parse(p.read_text())
    for fn in ast.walk(tree):
        if not isinstance(fn,(ast.FunctionDef,)): continue
        params={a.arg for a in fn.args.args+fn.args.kwonlyargs+fn.args.posonlyargs}
        if fn.args.vararg: params.add(fn.args.vararg.arg)
        if fn.args.kwarg: params.add(fn.args.kwarg.arg)
        for n in ast.walk(fn):
            def base(e):
                while isinstance(e,(ast.Attribute,ast.Subscript)): e=e.value
                return e.id if isinstance(e,ast.Name) else None
            if isinstance(n,(ast.Assign,ast.AugAssign,ast.AnnAssign)):
                tg=n.targets if isinstance(n,ast.Assign) else [n.target]
                for t in tg:
                    for tt in (t.elts if isinstance(t,ast.Tuple) else [t]):
                        if isinstance(tt,(ast.Subscript,ast.Attribute)) and base(tt) in params|{'self'}:
                            print(f'{p.relative_to(root)}:{n.lineno} {fn.name}: store into {ast.unparse(tt)}')
                        if isinstance(n,ast.AugAssign) and isinstance(tt,ast.Name) and tt.id in params:
                            print(f'{p.relative_to(root)}:{n.lineno} {fn.name}: augassign param {tt.id}')
            if isinstance(n,ast.Call) and isinstance(n.func,ast.Attribute):
                if n.func.attr in MUT and base(n.func.value) in params|{'self'}:
                    print(f'{p.relative_to(root)}:{n.lineno} {fn.name}: mutcall {ast.unparse(n)[:80]}')
                if n.func.attr in EXT_MUT:
                    print(f'{p.relative_to(root)}:{n.lineno} {fn.name}: extmut {ast.unparse(n)[:80]}')
            if isinstance(n,ast.Global): print(f'{p.relative_to(root)}:{n.lineno} {fn.name}: global {n.names}')
            if isinstance(n,ast.keyword) and n.arg=='inplace': print(f'{p.relative_to(root)}:{n.value.lineno} {fn.name}: inplace kw')
